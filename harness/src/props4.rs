//! correspondence runs for C06, C09, C11, C12, C13, C18, C19
use crate::engine::*;
use crate::extract;
use crate::gen::*;
use crate::imp::{self, End};
use crate::props::{corpus_programs, Ctx, PropResult};
use crate::props2::no_panic_oracle;
use crate::util::{hex, Rng};
use std::collections::BTreeMap;
use std::process::{Command, Stdio};

fn no_known(_: &Case, _: &Outcome) -> Option<String> {
    None
}
fn run_case(src: String, tag: &str) -> Case {
    Case::new(Kind::Run, src).tag(tag)
}

// ---------------------------------------------------------------------------------------------
// C06: layout, comments, keyword case

#[derive(Clone, Debug)]
struct Tok {
    kind: String,
    lexeme: String,
    lit: String,
}

fn impl_tokens(src: &str) -> Option<Vec<Tok>> {
    let rec = imp::lex_record(src);
    let rest = rec.strip_prefix("ok ")?;
    Some(
        rest.split('|')
            .map(|t| {
                let f: Vec<&str> = t.split(':').collect();
                Tok { kind: f[0].to_string(), lexeme: String::from_utf8_lossy(&crate::util::unhex(f[1])).to_string(), lit: f[2].to_string() }
            })
            .collect(),
    )
}

fn is_bracketish(t: &Tok) -> bool {
    matches!(t.kind.as_str(), "LeftParen" | "RightParen" | "LeftBracket" | "RightBracket" | "LeftBrace" | "RightBrace" | "Comma")
}

fn is_keyword(kind: &str) -> bool {
    !matches!(
        kind,
        "SoftSemi" | "LeftParen" | "RightParen" | "LeftBracket" | "RightBracket" | "LeftBrace" | "RightBrace" | "Comma" | "Dot" | "Minus" | "Plus" | "Slash" | "Star" | "Arrow" | "EqualEqual" | "BangEqual" | "Greater" | "GreaterEqual" | "Less" | "LessEqual" | "Identifier" | "Number" | "StringLiteral" | "Eof"
    )
}

/// whether two tokens may stand directly next to each other: the lexical grammar still separates them (a bracket or a
/// comma next to anything; a word or a string next to an operator; a number directly before a word - `3TIMES` is the
/// number 3 and the word TIMES, a number being digits with an optional fraction; two operators unless their characters
/// would form another token or a comment)
fn may_glue(t: &Tok, next: &Tok) -> bool {
    if is_bracketish(t) || is_bracketish(next) {
        return true;
    }
    let (Some(a), Some(b)) = (t.lexeme.chars().last(), next.lexeme.chars().next()) else { return false };
    let word = |c: char| c.is_alphanumeric() || c == '_';
    if a == '.' || b == '.' || a == '\\' || b == '\\' {
        return false;
    }
    if word(a) && word(b) {
        return t.kind == "Number" && (b.is_alphabetic() || b == '_');
    }
    if word(a) || word(b) || a == '"' || b == '"' {
        return true;
    }
    !matches!((a, b), ('<', '-') | ('<', '=') | ('>', '=') | ('=', '=') | ('!', '=') | ('/', '/') | ('<', '<') | ('-', '>'))
}

/// render a token stream under a random admissible layout and keyword casing
/// mode 0: random; 1: everything on one line (`;` terminators, single blanks); 2: a line break wherever one is admissible;
/// 3: no separator wherever the lexical grammar needs none (`;` terminators)
fn render_layout(toks: &[Tok], enders: &[String], rng: &mut Rng, mode: u8) -> String {
    let mut s = String::new();
    if mode == 0 && rng.chance(1, 4) {
        s.push_str(["\n", "  ", "// héader 中\n", "\t\r\n", "\n\n// x\n"][rng.below(5)]);
    }
    let n = toks.len();
    for i in 0..n {
        let t = &toks[i];
        if t.kind == "Eof" {
            break;
        }
        if t.kind == "SoftSemi" {
            // a statement terminator: newline or ';' (a newline here is a terminator only because the previous token is an ender)
            let prev_is_ender = i > 0 && enders.contains(&toks[i - 1].kind);
            // a statement may stand directly before the closing brace of its block or the end of the input
            let next_closes = toks[i + 1..].iter().find(|t| t.kind != "SoftSemi").map(|t| t.kind == "RightBrace" || t.kind == "Eof").unwrap_or(true);
            if mode == 1 {
                s.push_str("; ");
                continue;
            }
            if mode == 3 {
                s.push(';');
                continue;
            }
            if mode == 2 {
                s.push_str(if prev_is_ender { "\n" } else { ";\n" });
                continue;
            }
            if next_closes && i > 0 && toks[i - 1].kind != "SoftSemi" && rng.chance(1, 3) {
                s.push(' ');
                continue;
            }
            if prev_is_ender && rng.chance(1, 2) {
                s.push_str(["\n", "\n", " \n", "\r\n", " // c\n", "\n\n  \n", "\n// é\n", " // path C:\\tmp\\\n", " //\n", "\n// \"quoted\" // nested \\\n", " \\\n\n", " \\\n  \t\n", "\\\n\r\n", " \\\n \\\n\n",
                    // a continuation, then a line holding only a comment: that line's end is the terminator
                    " \\\n// only a comment\n", "\\\n  // é\n", " \\\n\t// c \\\n", " \\\n//\n\n", "\n// a\n// b\n", " // t\n  // own line\n"][rng.below(20)]);
            } else {
                s.push_str([";", " ;", "; ", ";\n", " ; // c\n"][rng.below(5)]);
            }
            continue;
        }
        // the token itself
        if is_keyword(&t.kind) {
            if rng.chance(1, 2) {
                s.push_str(&t.lexeme.to_uppercase());
            } else {
                s.push_str(&t.lexeme.to_lowercase());
            }
        } else {
            s.push_str(&t.lexeme);
        }
        // the separator before the next token
        if i + 1 < n && toks[i + 1].kind != "SoftSemi" && toks[i + 1].kind != "Eof" {
            let next = &toks[i + 1];
            let may_join = may_glue(t, next);
            let may_break = !enders.contains(&t.kind);
            let k = match mode {
                1 => 11,
                2 => 6,
                3 => 0,
                _ => rng.below(12),
            };
            let sep = match k {
                0 | 1 if may_join => "",
                2 => "  ",
                3 => "\t",
                4 => ["\r", " \r", "\r "][rng.below(3)],
                5 => " \\\n ",
                6 if may_break => "\n",
                7 if may_break => [" // cömment\n  ", " // ends with a backslash \\\n", " // \\\\\n\t", " //\n"][rng.below(4)],
                8 if may_break => "\r\n\t",
                9 if may_break => "\n\n",
                _ => " ",
            };
            s.push_str(sep);
        }
    }
    if mode == 0 && rng.chance(1, 2) {
        s.push_str(["\n", " ", "// end", "\n\n", " // end 中\n"][rng.below(5)]);
    }
    s
}

/// the statement enders the property names (not the live table: the live table is what is being checked)
pub const DOC_ENDERS: &[&str] = &["Identifier", "Number", "StringLiteral", "True", "False", "Null", "RightParen", "RightBracket", "RightBrace", "Break", "Continue", "Return"];

pub fn c06(ctx: &Ctx) -> PropResult {
    let enders: Vec<String> = DOC_ENDERS.iter().map(|s| s.to_string()).collect();
    let mut rng = mk_rng(ctx.seed, 6);
    let mut programs = corpus_programs();
    // identifiers that begin with a keyword, at the start of lines after every statement-ending token
    {
        let kws: Vec<String> = KEYWORDS_DOC.iter().map(|k| k.to_string()).collect();
        programs.extend(crate::props6::keyword_prefixed_identifier_family(&kws));
    }
    let np = if ctx.quick() { 300 } else { 3_000 };
    for _ in 0..np {
        let mut g = Gen::new(&mut rng);
        g.allow_errors = false;
        let k = 1 + g.rng.below(5);
        programs.push(g.program(k));
    }
    // every kind of simple statement as the last statement of a block and of the program (its terminator is optional there)
    for last in ["DISPLAY(1)", "x <- 2", "IMPORT MOD \"MATH\"", "IMPORT \"SIN\" FROM MOD \"MATH\"", "IMPORT [\"SIN\", \"COS\"] FROM MOD \"MATH\"", "BREAK", "CONTINUE", "RETURN", "RETURN 5", "l[1] <- 3", "f(1)"] {
        let in_loop = last == "BREAK" || last == "CONTINUE";
        let in_proc = last.starts_with("RETURN");
        let block = if in_loop { format!("REPEAT 2 TIMES {{\nDISPLAY(\"it\")\n{last}\n}}\n") } else if in_proc { format!("PROCEDURE g() {{\nDISPLAY(\"in g\")\n{last}\n}}\nDISPLAY(g())\n") } else { format!("{{\nDISPLAY(\"blk\")\n{last}\n}}\nIF (TRUE) {{\n{last}\n}}\n") };
        for _ in 0..3 {
            programs.push(format!("l <- [1, 2]\nPROCEDURE f(a) {{\nRETURN a\n}}\n{block}DISPLAY(\"end\")\n"));
        }
        if !in_loop && !in_proc {
            programs.push(format!("l <- [1, 2]\nPROCEDURE f(a) {{\nRETURN a\n}}\nDISPLAY(\"start\")\n{last}\n"));
        }
    }
    // behaviour must not depend on which line a construct is on: the same name declared twice, statements that the
    // layout may put on one line or on different lines
    for _ in 0..4 {
        programs.push("PROCEDURE f() {\nRETURN 1\n}\nDISPLAY(f())\nPROCEDURE f() {\nRETURN 2\n}\nDISPLAY(f())\nPROCEDURE f() {\nRETURN 3\n}\nDISPLAY(f())\n".to_string());
        programs.push("x <- 1\nx <- x + 1\nl <- [x, x]\nl <- l + l\nDISPLAY(l)\nPROCEDURE g(a) {\nRETURN a\n}\nPROCEDURE g(a) {\nRETURN a + 1\n}\nDISPLAY(g(x))\n".to_string());
    }
    // (appended) a binary minus in front of a unary minus, a comparison in front of a unary minus: with and without blanks
    programs.push("a <- 7\nb <- 9\nDISPLAY(a - -2)\nDISPLAY(b - -1 == 10)\nDISPLAY(0 - - -1)\nDISPLAY(a < -b)\nDISPLAY(a > -b)\nDISPLAY(a * -b)\nDISPLAY(a == -b)\nDISPLAY(NOT -a)\nc <- -a\nc <- - -a\nDISPLAY(c)\n".to_string());
    programs.push("l <- [3, 4]\nDISPLAY(l[1] - -l[2])\nDISPLAY(l[1]-1)\nDISPLAY(LENGTH(l) -1)\nDISPLAY((l[1]) - -1)\n".to_string());
    let per = if ctx.quick() { 6 } else { 20 };
    let mut cases = vec![];
    for p in &programs {
        let Some(toks) = impl_tokens(p) else { continue };
        for _ in 0..per {
            let rendered = render_layout(&toks, &enders, &mut rng, 0);
            cases.push(Case::new(Kind::Run, rendered).tag("layout").aux(p.clone()));
        }
        // the two extreme layouts: the whole program on one line, and a line break wherever one is admissible
        for mode in [1u8, 2, 3] {
            let rendered = render_layout(&toks, &enders, &mut rng, mode);
            cases.push(Case::new(Kind::Run, rendered).tag("layout").tag(["", "layout:one-line", "layout:max-breaks", "layout:no-separators"][mode as usize]).aux(p.clone()));
        }
        cases.push(Case::new(Kind::Lex, p.clone()).tag("canonical-lex"));
    }
    // the end of the input ends the last statement like a newline does: every construct with a brace-less body as the
    // very last thing, ending in nothing, a blank, a comment, `;` - against the same text with a final newline
    for last in ["PROCEDURE g() RETURN 5", "PROCEDURE g() RETURN", "EXPORT PROCEDURE g() RETURN 5", "IF (TRUE) x <- 1", "REPEAT 2 TIMES x <- x + 1", "FOR EACH e IN [1] x <- e", "IF (FALSE) x <- 1 ELSE x <- 2", "PROCEDURE g() IF (TRUE) RETURN 1", "REPEAT UNTIL (TRUE) x <- 1", "PROCEDURE g() { RETURN 5 }", "REPEAT 1 TIMES BREAK", "REPEAT 1 TIMES CONTINUE", "IMPORT MOD \"MATH\"", "DISPLAY(x)", "x <- [1, 2]", "y <- 38", "y <- 2.75", "y <- x + 100", "PROCEDURE g() RETURN 55", "y <- \"text\"", "y <- TRUE", "y <- x", "REPEAT 2 TIMES x <- x + 10"] {
        for end in ["", " ", "  // c", ";", " ;", "\t", "\r", " \\\n"] {
            cases.push(Case::new(Kind::Run, format!("x <- 0\n{last}{end}")).tag("layout").tag("layout:end-of-input").aux(format!("x <- 0\n{last}\nDISPLAY(x)\n").replace("\nDISPLAY(x)\n", "\n")));
        }
    }
    // the converse clause: a newline after an ender ends the statement (an extra terminator token appears)
    for (kind, text) in extract::exemplars() {
        if kind == "SoftSemi" || kind == "Eof" {
            continue;
        }
        cases.push(Case::new(Kind::Lex, format!("{text}\n+ 1")).tag("newline-after-token").aux(kind.clone()));
        cases.push(Case::new(Kind::Lex, format!("x {text} // c\n y")).tag("newline-after-token").aux(kind));
    }
    // the converse clause inside brackets: a newline after an identifier, a literal or a closing bracket ends the
    // statement there as well (so the program is rejected exactly like the one with an explicit `;`)
    for (a, b) in [("x <- [1, 2", "]"), ("x <- (1 + y", ")"), ("f(1", ", 2)"), ("x <- l[1", "]"), ("x <- [[1]", ", 2]"), ("x <- (\"s\"", ")"), ("f(g(1)", ")"),
        // a construct cannot continue on the next line after a token that ends a statement
        ("IF (TRUE) {\nDISPLAY(1)\n}", "ELSE {\nDISPLAY(2)\n}"), ("IF (FALSE) {\n}", "ELSE IF (TRUE) {\nDISPLAY(3)\n}"), ("REPEAT 2", "TIMES {\nDISPLAY(4)\n}"), ("FOR EACH x", "IN [1] {\nDISPLAY(x)\n}"),
        ("IMPORT \"SIN\"", "FROM MOD \"MATH\""), ("x <- 5", "+ 1"), ("x <- 5", "- 1"), ("x <- f", "(1)"), ("x <- l", "[1]"), ("PROCEDURE g()", "{\n}"), ("IF (TRUE)", "{\nDISPLAY(5)\n}"),
        ("REPEAT UNTIL (TRUE)", "{\n}"), ("x <- TRUE", "AND FALSE"), ("x <- y", "<- 3"), ("RETURN", "5"), ("x <- NOT TRUE", "OR TRUE")] {
        let nl = format!("y <- 1\nl <- [1, 2]\nPROCEDURE f(q) {{\nRETURN q\n}}\n{a}\n{b}\nDISPLAY(\"end\")\n");
        let semi = format!("y <- 1\nl <- [1, 2]\nPROCEDURE f(q) {{\nRETURN q\n}}\n{a};{b}\nDISPLAY(\"end\")\n");
        cases.push(Case::new(Kind::Run, nl).tag("newline-ends-statement").aux(semi));
    }
    // behavioural form of the converse clause: a statement after a bare RETURN / BREAK / CONTINUE + newline is a
    // statement of its own (dead code), never an operand
    for (a, b) in [
        ("PROCEDURE f() {\nDISPLAY(\"in\")\nRETURN\n", "}\nDISPLAY(f())\n"),
        ("PROCEDURE f() {\nIF (TRUE) {\nRETURN\n", "}\nRETURN 5\n}\nDISPLAY(f())\n"),
        ("REPEAT 2 TIMES {\nDISPLAY(\"it\")\nBREAK\n", "}\n"),
        ("REPEAT 2 TIMES {\nDISPLAY(\"it\")\nCONTINUE\n", "}\n"),
        ("x <- 5\ny <- x\n", "DISPLAY(y)\n"),
        ("l <- [1, 2]\ny <- l[1]\n", "DISPLAY(y)\n"),
        ("y <- (1)\n", "DISPLAY(y)\n"),
        ("y <- \"s\"\n", "DISPLAY(y)\n"),
        ("y <- TRUE\n", "DISPLAY(y)\n"),
        ("y <- NULL\n", "DISPLAY(y)\n"),
        ("y <- 3\n", "DISPLAY(y)\n"),
    ] {
        for next in ["-1", "- 1", "(2)", "[3]", "\"dead\"", "z <- 4", "DISPLAY(\"next\")", "NOT TRUE"] {
            // the same program with an explicit `;` where the newline is: both must behave alike
            let nl = format!("{a}{next}\n{b}");
            let semi = format!("{}; {next}\n{b}", a.trim_end_matches('\n'));
            cases.push(Case::new(Kind::Run, nl).tag("newline-ends-statement").aux(semi));
        }
    }
    // (appended) a header that ends in a statement-ending token and its body are one statement only on one line (after
    // TIMES and ELSE, which cannot end a statement, the body may follow on the next line)
    for (a, b) in [("FOR EACH x IN [1]", "{\nDISPLAY(x)\n}"), ("FOR EACH x IN l", "DISPLAY(x)"), ("FOR EACH x IN f(l)", "{\n}"), ("IF (TRUE)", "DISPLAY(8)"), ("PROCEDURE g()", "RETURN 1"), ("REPEAT UNTIL (TRUE)", "DISPLAY(9)"), ("IF (FALSE) {\n} ELSE IF (TRUE)", "{\nDISPLAY(3)\n}"), ("FOR EACH x IN \"ab\"", "{\nDISPLAY(x)\n}"), ("FOR EACH x IN (l)", "{\nDISPLAY(x)\n}")] {
        let nl = format!("y <- 1\nl <- [1, 2]\nPROCEDURE f(q) {{\nRETURN q\n}}\n{a}\n{b}\nDISPLAY(\"end\")\n");
        let semi = format!("y <- 1\nl <- [1, 2]\nPROCEDURE f(q) {{\nRETURN q\n}}\n{a};{b}\nDISPLAY(\"end\")\n");
        cases.push(Case::new(Kind::Run, nl).tag("newline-ends-statement").aux(semi));
    }
    // (appended, round 17) a text literal with raw line breaks as the last token of its line, then another statement
    for (nl, semi) in crate::props6::multiline_literal_line_end_family() {
        cases.push(Case::new(Kind::Run, nl).tag("newline-ends-statement").tag("multiline-literal").aux(semi));
    }
    // (appended, round 16) a brace-less branch and its ELSE separated by blank lines, comments, `;`, CR LF, continuations
    for (v, canon) in crate::props6::unbraced_else_separations() {
        cases.push(Case::new(Kind::Run, v).tag("layout").tag("layout:else-separation").aux(canon));
    }
    let enders2 = enders.clone();
    let oracle = move |case: &Case, out: &Outcome| -> Result<bool, String> {
        if case.tags.iter().any(|t| t == "layout") {
            let Some(r) = out.impl_run.as_ref() else { return Ok(false) };
            if let End::Panic(m) = &r.end {
                return Err(format!("implementation panicked: {m}"));
            }
            // same tokens as the canonical layout
            let (Some(a), Some(b)) = (impl_tokens(&case.aux), impl_tokens(&case.src)) else {
                return Err("a layout variant no longer lexes".into());
            };
            let strip = |v: Vec<Tok>| -> Vec<(String, String, String)> {
                // runs of terminators are one terminator; leading terminators vanish (nothing precedes them)
                let mut out: Vec<(String, String, String)> = vec![];
                for t in v {
                    if t.kind == "SoftSemi" {
                        if out.last().map(|l| l.0 == "SoftSemi").unwrap_or(true) {
                            continue;
                        }
                        out.push(("SoftSemi".into(), String::new(), String::new()));
                    } else if t.kind == "Eof" {
                        continue;
                    } else if t.kind == "RightBrace" {
                        // a terminator directly before `}` is optional
                        while out.last().map(|l| l.0 == "SoftSemi").unwrap_or(false) {
                            out.pop();
                        }
                        out.push((t.kind, t.lexeme, t.lit));
                    } else if is_keyword(&t.kind) {
                        out.push((t.kind, t.lexeme.to_uppercase(), t.lit));
                    } else {
                        out.push((t.kind, t.lexeme, t.lit));
                    }
                }
                while out.last().map(|l| l.0 == "SoftSemi").unwrap_or(false) {
                    out.pop();
                }
                out
            };
            if strip(a) != strip(b) {
                return Err("the layout variant produces different tokens".into());
            }
            let canon = imp::run_impl(&case.aux, "", case.fuel, 48);
            if canon.class() != r.class() || canon.output != r.output {
                return Err(format!("the layout variant behaves differently: canonical {} {:?} / variant {} {:?}", canon.status_str(), canon.output, r.status_str(), r.output));
            }
            return Ok(true);
        }
        if case.tags.iter().any(|t| t == "newline-ends-statement") {
            let Some(r) = out.impl_run.as_ref() else { return Ok(false) };
            let twin = imp::run_impl(&case.aux, "", case.fuel, 48);
            if twin.class() != r.class() || twin.output != r.output {
                return Err(format!("a newline after a statement-ending token did not end the statement: with `;` {} {:?} / with newline {} {:?}", twin.status_str(), twin.output, r.status_str(), r.output));
            }
            return Ok(true);
        }
        if case.tags.iter().any(|t| t == "newline-after-token") {
            let toks = impl_tokens(&case.src);
            let is_ender = enders2.contains(&case.aux);
            if let Some(toks) = toks {
                let pos = if case.src.starts_with("x ") { 1 } else { 0 };
                let after = toks.get(pos + 1).map(|t| t.kind.as_str()).unwrap_or("");
                if toks.get(pos).map(|t| t.kind.as_str()) == Some(case.aux.as_str()) {
                    if is_ender && after != "SoftSemi" {
                        return Err(format!("a newline after {} did not end the statement", case.aux));
                    }
                    if !is_ender && after == "SoftSemi" {
                        return Err(format!("a newline after {} ended the statement", case.aux));
                    }
                }
            }
            return Ok(true);
        }
        Ok(true)
    };
    let stats = run_cases(&ctx.driver, cases, &oracle, &no_known, ctx.threads);
    PropResult {
        stats,
        rule: format!("{} programs (the repository's tests and examples, generated programs) -> token stream -> {} random admissible renderings each: at every token boundary one of nothing (only next to a bracket or comma), blanks, tab, CR, backslash-newline, and - where the previous token cannot end a statement - newline, CRLF, blank lines or a // comment with non-ASCII text; every terminator as newline, CRLF, comment+newline or ';'; every keyword independently upper or lower case; leading and trailing blank/comment material; implementation-only oracle: same tokens (kinds, literals, text) and same behaviour as the canonical layout; the variant is also run through the model; converse clause: for every token kind a newline (or comment+newline) after it yields a terminator exactly for the kinds of the extracted ender set; the fourth extreme layout leaves out every separator the lexical grammar does not need (a number directly before a word, words next to operators); terminators made of a continuation and comment-only lines; names that begin with a keyword at line starts; fifteen constructs as the very last thing of the input ending in nothing / blank / tab / CR / comment / ; / continuation; a binary minus or a comparison in front of a unary minus; header and body on two lines for headers that end in a statement-ending token; numbers, texts and names as the very last token of the input", programs.len(), per),
        exhaustive: false,
        notes: vec!["round 16: a brace-less branch and its ELSE separated by blank lines, comment lines, `;` + newline, CR LF; round 17: a text literal with raw line breaks as the last token of its line, then another statement".into()],
    }
}

// ---------------------------------------------------------------------------------------------
// C09: grammar derivations

struct Deriv<'a> {
    rng: &'a mut Rng,
    id: usize,
}

impl<'a> Deriv<'a> {
    fn expr(&mut self, d: usize) -> String {
        if d > 2 || self.rng.chance(1, 3) {
            return ["x", "1", "\"s\"", "TRUE", "NULL", "f(1, x)", "[1, 2]", "x[1]", "2.5", "g()"][self.rng.below(10)].to_string();
        }
        let ops = ["+", "-", "*", "/", "MOD", "==", "!=", "<", "<=", ">", ">=", "AND", "OR"];
        match self.rng.below(8) {
            0 => format!("({})", self.expr(d + 1)),
            1 => format!("NOT {}", self.operand(d + 1)),
            2 => format!("-{}", self.operand(d + 1)),
            3 => format!("x <- {}", self.expr(d + 1)),
            4 => format!("x[{}] <- {}", self.expr(d + 1), self.expr(d + 1)),
            _ => format!("{} {} {}", self.operand(d + 1), ops[self.rng.below(ops.len())], self.operand(d + 1)),
        }
    }
    /// operands are parenthesised unless atomic (precedence is C05's subject; this generator derives statements)
    fn operand(&mut self, d: usize) -> String {
        let e = self.expr(d);
        if e.contains(' ') && !(e.starts_with('(') && e.ends_with(')') && !e[1..].contains('(')) && !e.starts_with('[') && !e.starts_with("f(") {
            format!("({e})")
        } else {
            e
        }
    }
    /// terminator of a simple statement: newline, ';', or nothing (when `}` / end of input follows)
    fn term(&mut self, last_in_block: bool) -> &'static str {
        if last_in_block && self.rng.chance(1, 2) {
            return " ";
        }
        ["\n", ";", "; ", "\n\n", " ;\n"][self.rng.below(5)]
    }
    fn block(&mut self, d: usize, in_loop: bool, in_proc: bool) -> String {
        let n = self.rng.below(4);
        let mut s = String::from("{");
        s.push_str(["\n", " ", ""][self.rng.below(3)]);
        for i in 0..n {
            s.push_str(&self.stmt(d + 1, in_loop, in_proc, i + 1 == n));
        }
        s.push('}');
        s
    }
    /// after a compound statement a newline or ';' is needed before the next statement, except before `}`
    fn after_compound(&mut self, last: bool) -> &'static str {
        if last && self.rng.chance(1, 2) {
            return " ";
        }
        ["\n", ";", "\n\n"][self.rng.below(3)]
    }
    fn stmt(&mut self, d: usize, in_loop: bool, in_proc: bool, last: bool) -> String {
        let k = if d > 2 { self.rng.below(6) } else { self.rng.below(16) };
        match k {
            0 | 1 => format!("{}{}", self.expr(0), self.term(last)),
            2 => format!("DISPLAY({}){}", self.expr(1), self.term(last)),
            3 if in_loop => format!("{}{}", ["BREAK", "CONTINUE"][self.rng.below(2)], self.term(last)),
            4 if in_proc => {
                if self.rng.chance(1, 2) {
                    format!("RETURN {}{}", self.expr(1), self.term(last))
                } else {
                    format!("RETURN{}", self.term(last))
                }
            }
            3 | 4 | 5 => format!("x <- {}{}", self.expr(1), self.term(last)),
            6 | 7 => {
                let mut s = format!("IF ({}) {}", self.expr(1), self.block(d, in_loop, in_proc));
                let mut n = self.rng.below(3);
                while n > 0 {
                    if n > 1 {
                        s.push_str(&format!(" ELSE IF ({}) {}", self.expr(1), self.block(d, in_loop, in_proc)));
                    } else {
                        s.push_str(&format!(" ELSE {}", self.block(d, in_loop, in_proc)));
                    }
                    n -= 1;
                }
                s.push_str(self.after_compound(last));
                s
            }
            8 => format!("REPEAT {} TIMES {}{}", self.expr(2), self.block(d, true, in_proc), self.after_compound(last)),
            9 => format!("REPEAT UNTIL ({}) {}{}", self.expr(1), self.block(d, true, in_proc), self.after_compound(last)),
            10 => format!("FOR EACH item IN {} {}{}", self.expr(2), self.block(d, true, in_proc), self.after_compound(last)),
            11 | 12 => {
                self.id += 1;
                let exp = if self.rng.chance(1, 3) { "EXPORT " } else { "" };
                let params = ["", "a", "a, b", "a, b, c"][self.rng.below(4)];
                let id = self.id;
                let body = self.block(d, false, true);
                let after = self.after_compound(last);
                format!("{exp}PROCEDURE p{id}({params}) {body}{after}")
            }
            13 => format!("{}{}", self.block(d, in_loop, in_proc), self.after_compound(last)),
            14 => {
                let form = match self.rng.below(3) {
                    0 => "IMPORT MOD \"MATH\"".to_string(),
                    1 => "IMPORT \"SIN\" FROM MOD \"MATH\"".to_string(),
                    _ => "IMPORT [\"SIN\", \"COS\"] FROM MOD \"MATH\"".to_string(),
                };
                format!("{form}{}", self.term(last))
            }
            _ => format!("DISPLAY(\"k\"){}", self.term(last)),
        }
    }
    fn program(&mut self) -> String {
        let n = 1 + self.rng.below(5);
        let mut s = String::new();
        if self.rng.chance(1, 4) {
            s.push_str(["\n", ";\n", "// c\n"][self.rng.below(3)]);
        }
        for i in 0..n {
            // the last statement of the input may stand directly before the end of the input
            s.push_str(&self.stmt(0, false, false, i + 1 == n));
        }
        s
    }
}

fn bracket_balance(src: &str) -> bool {
    // brackets outside strings and comments
    let mut stack = vec![];
    let mut chars = src.chars().peekable();
    let mut in_str = false;
    while let Some(c) = chars.next() {
        if in_str {
            if c == '\\' {
                chars.next();
            } else if c == '"' {
                in_str = false;
            }
            continue;
        }
        match c {
            '"' => in_str = true,
            '/' if chars.peek() == Some(&'/') => {
                for d in chars.by_ref() {
                    if d == '\n' {
                        break;
                    }
                }
            }
            '(' | '[' | '{' => stack.push(c),
            ')' => {
                if stack.pop() != Some('(') {
                    return false;
                }
            }
            ']' => {
                if stack.pop() != Some('[') {
                    return false;
                }
            }
            '}' => {
                if stack.pop() != Some('{') {
                    return false;
                }
            }
            _ => {}
        }
    }
    stack.is_empty() && !in_str
}

/// the documented keywords (upper-case spelling)
pub const KEYWORDS_DOC: &[&str] = &["AND", "BREAK", "CONTINUE", "EACH", "ELSE", "EXPORT", "FALSE", "FOR", "FROM", "IF", "IMPORT", "IN", "MOD", "NOT", "NULL", "OR", "PROCEDURE", "REPEAT", "RETURN", "TIMES", "TRUE", "UNTIL"];

/// replace the identifier `from` by `to` everywhere outside string literals and comments
pub fn rename_word(src: &str, from: &str, to: &str) -> String {
    let chars: Vec<char> = src.chars().collect();
    let mut out = String::with_capacity(src.len());
    let mut i = 0;
    while i < chars.len() {
        let c = chars[i];
        if c == '"' {
            out.push(c);
            i += 1;
            while i < chars.len() {
                out.push(chars[i]);
                if chars[i] == '\\' && i + 1 < chars.len() {
                    out.push(chars[i + 1]);
                    i += 2;
                    continue;
                }
                if chars[i] == '"' {
                    i += 1;
                    break;
                }
                i += 1;
            }
        } else if c.is_alphanumeric() || c == '_' {
            let st = i;
            while i < chars.len() && (chars[i].is_alphanumeric() || chars[i] == '_') {
                i += 1;
            }
            let w: String = chars[st..i].iter().collect();
            out.push_str(if w == from { to } else { &w });
        } else {
            out.push(c);
            i += 1;
        }
    }
    out
}

/// lower-case the keywords of a program text (all of them, or each with probability 1/2), leaving string
/// literals, comments and identifiers alone
pub fn recase_keywords(src: &str, rng: &mut Rng, all: bool) -> String {
    let chars: Vec<char> = src.chars().collect();
    let mut out = String::with_capacity(src.len());
    let mut i = 0;
    while i < chars.len() {
        let c = chars[i];
        if c == '"' {
            out.push(c);
            i += 1;
            while i < chars.len() {
                out.push(chars[i]);
                if chars[i] == '\\' && i + 1 < chars.len() {
                    out.push(chars[i + 1]);
                    i += 2;
                    continue;
                }
                if chars[i] == '"' {
                    i += 1;
                    break;
                }
                i += 1;
            }
        } else if c == '/' && i + 1 < chars.len() && chars[i + 1] == '/' {
            while i < chars.len() && chars[i] != '\n' {
                out.push(chars[i]);
                i += 1;
            }
        } else if c.is_alphanumeric() || c == '_' {
            let st = i;
            while i < chars.len() && (chars[i].is_alphanumeric() || chars[i] == '_') {
                i += 1;
            }
            let w: String = chars[st..i].iter().collect();
            if KEYWORDS_DOC.contains(&w.as_str()) && (all || rng.chance(1, 2)) {
                out.push_str(&w.to_lowercase());
            } else {
                out.push_str(&w);
            }
        } else {
            out.push(c);
            i += 1;
        }
    }
    out
}

pub fn c09(ctx: &Ctx) -> PropResult {
    let mut rng = mk_rng(ctx.seed, 9);
    let mut cases = vec![];
    let n = if ctx.quick() { 5_000 } else { 150_000 };
    let mut valid = vec![];
    for _ in 0..n {
        let mut d = Deriv { rng: &mut rng, id: 0 };
        let p = d.program();
        valid.push(p.clone());
        cases.push(Case::new(Kind::Parse, p).tag("derivation").aux("accept".into()));
    }
    // identifiers are any words that are not keywords as written: names that resemble keywords in another casing,
    // names with non-ASCII letters, digits and underscores
    let names = ["Times", "Each", "Mod", "In", "Or", "Null", "If", "Not", "True", "From", "tImes", "rEPEAT", "résumé", "x_", "x2_", "élan", "変数", "Break", "Import", "Export", "Until", "For"];
    for (i, p) in valid.iter().enumerate().take(if ctx.quick() { 1_200 } else { 30_000 }) {
        let name = names[i % names.len()];
        let renamed = rename_word(p, "x", name);
        cases.push(Case::new(Kind::Parse, renamed).tag("derivation-identifiers").aux("accept".into()));
    }
    // every keyword may be written in lower case: the derivations again with all / some keywords lower-cased
    for (i, p) in valid.iter().enumerate().take(if ctx.quick() { 1_500 } else { 30_000 }) {
        cases.push(Case::new(Kind::Parse, recase_keywords(p, &mut rng, i % 2 == 0)).tag("derivation-keyword-case").aux("accept".into()));
    }
    // fixed forms from the property's text
    for p in [
        "PROCEDURE f() { RETURN 7 }",
        "PROCEDURE f() { RETURN }",
        "PROCEDURE f() {\n RETURN 1\n}",
        "PROCEDURE f() { IF (TRUE) { RETURN 1 } RETURN 2 }",
        "{ { DISPLAY(1) } }",
        "{ { } }",
        "{ x <- 1; { y <- 2 } }",
        "IMPORT MOD \"MATH\"",
        "IMPORT \"SIN\" FROM MOD \"MATH\"",
        "IMPORT [\"SIN\"] FROM MOD \"MATH\"",
        "{ IMPORT MOD \"MATH\" }",
        "EXPORT PROCEDURE f(a) { RETURN a }",
        "REPEAT 2 TIMES { BREAK }",
        "REPEAT UNTIL (TRUE) { CONTINUE }",
        "FOR EACH x IN [1] { BREAK }",
        "x <- 1",
        "DISPLAY(1);DISPLAY(2)",
        "IF (x) { y } ELSE IF (z) { w } ELSE { v }",
        "",
        "\n\n",
        ";",
    ] {
        cases.push(Case::new(Kind::Parse, p.to_string()).tag("documented-form").aux("accept".into()));
        cases.push(Case::new(Kind::Parse, recase_keywords(p, &mut rng, true)).tag("documented-form-lower-case").aux("accept".into()));
    }
    // valid programs stay valid at any depth of nesting and any length of an ELSE IF chain, and whatever words that
    // merely begin with a keyword they use as names
    for p in crate::props6::deep_nesting_family() {
        cases.push(Case::new(Kind::Parse, p.clone()).tag("deep-nesting").aux("accept".into()));
        cases.push(Case::new(Kind::Run, p).tag("deep-nesting-run"));
    }
    {
        let kws: Vec<String> = KEYWORDS_DOC.iter().map(|k| k.to_string()).collect();
        for p in crate::props6::keyword_prefixed_identifier_family(&kws) {
            cases.push(Case::new(Kind::Parse, p).tag("keyword-prefixed-identifier").aux("accept".into()));
        }
    }
    // branches without braces followed by ELSE on the same line, brace-less bodies at the very end of the input:
    // accepted or rejected as the model says
    for p in crate::props6::unbraced_continuation_family() {
        cases.push(Case::new(Kind::Parse, p).tag("unbraced-continuation"));
    }
    // rejections
    for p in [
        "RETURN 1",
        "RETURN",
        "BREAK",
        "CONTINUE",
        "IF (TRUE) { BREAK }",
        "PROCEDURE f() { BREAK }",
        "PROCEDURE f() { CONTINUE }",
        "REPEAT 2 TIMES { PROCEDURE f() { BREAK } }",
        "REPEAT 2 TIMES { PROCEDURE f() { IF (x) { CONTINUE } } }",
        "FOR EACH x IN l { PROCEDURE f() { BREAK } }",
        "{ RETURN 1 }",
        "REPEAT 2 TIMES { RETURN 1 }",
        "PROCEDURE f() { } RETURN 1",
        "x <- 1 +",
        "x <- * 2",
        "x <- (1 + 2",
        "x <- 1 + 2)",
        "x <- [1, 2",
        "x <- 1, 2]",
        "{ x <- 1",
        "x <- 1 }",
        "IF (x { y }",
        "IF x) { y }",
        "f(1, )",
        "1 AND",
        "NOT",
        "x <-",
        "a[1",
        "a 1]",
        "PROCEDURE f( { }",
        "PROCEDURE f) { }",
    ] {
        cases.push(Case::new(Kind::Parse, p.to_string()).tag("misplaced-or-unbalanced").aux("reject".into()));
    }
    // every single deletion / insertion of a bracket in valid derivations that provably unbalances
    let nm = if ctx.quick() { 3_000 } else { 60_000 };
    for i in 0..nm {
        let p = &valid[i % valid.len()];
        let chars: Vec<char> = p.chars().collect();
        let brackets: Vec<usize> = chars.iter().enumerate().filter(|(_, c)| "()[]{}".contains(**c)).map(|(i, _)| i).collect();
        if brackets.is_empty() {
            continue;
        }
        let mut v = chars.clone();
        if rng.chance(1, 2) {
            v.remove(brackets[rng.below(brackets.len())]);
        } else {
            let pos = brackets[rng.below(brackets.len())];
            v.insert(pos, *rng.pick(&['(', ')', '[', ']', '{', '}']));
        }
        let m: String = v.into_iter().collect();
        if !bracket_balance(&m) {
            cases.push(Case::new(Kind::Parse, m).tag("unbalanced-mutation").aux("reject".into()));
        }
    }
    // RETURN followed by every kind of token an expression can start with (appended: earlier cases unchanged)
    for p in crate::props6::return_value_starts() {
        cases.push(Case::new(Kind::Parse, p.clone()).tag("return-value-starts"));
        cases.push(Case::new(Kind::Run, p).tag("return-value-starts-run"));
    }
    // (appended) comments change nothing: the derivations with a comment at the end of every line, of every other line,
    // and with comment-only lines between the statements
    for (i, p) in valid.iter().enumerate().take(if ctx.quick() { 1_000 } else { 20_000 }) {
        let commented: String = match i % 3 {
            0 => p.replace('\n', " // c\n"),
            1 => p.lines().enumerate().map(|(k, l)| if k % 2 == 0 { format!("{l} // é {k}\n") } else { format!("{l}\n") }).collect(),
            _ => p.lines().map(|l| format!("{l}\n// own line\n")).collect(),
        };
        cases.push(Case::new(Kind::Parse, commented).tag("derivation-comments").aux("accept".into()));
    }
    // (appended, round 16) headers that name a parameter twice are derivable and accepted (the later binding wins)
    for p in crate::props6::repeated_parameter_family() {
        cases.push(Case::new(Kind::Parse, p.clone()).tag("repeated-parameter").aux("accept".into()));
        cases.push(Case::new(Kind::Run, p).tag("repeated-parameter-run"));
    }
    let oracle = |case: &Case, out: &Outcome| -> Result<bool, String> {
        let rec = &out.impl_rec;
        if let Some(m) = rec.strip_prefix("panic ") {
            return Err(format!("front end panicked: {m}"));
        }
        match case.aux.as_str() {
            "accept" => {
                if !rec.starts_with("ok") {
                    return Err(format!("a program derivable from the documented grammar was rejected: {}", rec.chars().take(120).collect::<String>()));
                }
            }
            "reject" => {
                if rec.starts_with("ok") {
                    return Err("a program with an unbalanced bracket, a missing operand or a misplaced RETURN / BREAK / CONTINUE was accepted".into());
                }
                if let Some(rest) = rec.strip_prefix("errs ") {
                    let n: usize = rest.split(' ').next().unwrap_or("0").parse().unwrap_or(0);
                    if n == 0 {
                        return Err("rejected without a diagnostic".into());
                    }
                }
            }
            _ => {}
        }
        Ok(true)
    };
    let stats = run_cases(&ctx.driver, cases, &oracle, &no_known, ctx.threads);
    PropResult {
        stats,
        rule: "random derivations of the documented statement grammar (expression statements, IF / ELSE IF / ELSE, REPEAT TIMES, REPEAT UNTIL, FOR EACH, PROCEDURE and EXPORT PROCEDURE with 0-3 parameters, RETURN valued and bare, BREAK / CONTINUE inside loops, the three IMPORT forms, nested bare blocks; depth <= 3, <= 3 statements per block) with an independent terminator choice per statement (newline, ';', '; ', blank line, directly before '}' or the end of input) and block-opening layout; the documented forms of the property's text verbatim; rejection: 31 fixed misplaced / unbalanced / missing-operand programs and every random single bracket deletion / insertion in a valid derivation that a bracket counter proves unbalanced; implementation-only oracle: accepted / rejected with >= 1 diagnostic; syntax trees and diagnostic labels compared with the model; nesting depths 1 .. 200 of every block kind and expression kind, ELSE IF chains and flat programs of 1 .. 300 parts (accepted and run); names that begin with a keyword; brace-less branches followed by ELSE on the same line, brace-less bodies at the end of the input (as the model says); RETURN followed by every kind of expression start; the derivations with comments at line ends and on lines of their own".into(),
        exhaustive: false,
        notes: vec!["round 16: procedure headers naming a parameter twice are accepted and run (the later binding wins)".into()],
    }
}

// ---------------------------------------------------------------------------------------------
// C11: diagnostics point into the source, at the failing construct

pub fn c11(ctx: &Ctx) -> PropResult {
    let mut rng = mk_rng(ctx.seed, 11);
    let noise = ["", "// héllo 中文 😀\n", "\n\n\n", "note <- \"line1\\nline2 é\"\n", "// a\n// b\nzz <- \"😀😀\"\n\n", "   \t\n// ümlaut\n", "// crlf é\r\nn1 <- 1\r\n\r\n", "s2 <- \"two\r\nlines 語\"\r\n"];
    let pre = |rng: &mut Rng| -> String { noise[rng.below(noise.len())].to_string() };
    let mut cases = vec![];
    // every runtime-error kind, at several depths of expression / statement context
    let failing: &[(&str, &str)] = &[
        ("1 / 0", "/"),
        ("7 MOD 0", "MOD"),
        ("1 + TRUE", "+"),
        ("\"a\" - 1", "-"),
        ("[1] < [2]", "<"),
        ("NULL * 2", "*"),
        ("-\"s\"", "-"),
        ("-TRUE", "-"),
        ("nosuchvar", "nosuchvar"),
        ("nosuchproc(1)", "nosuchproc"),
        ("lst[0]", "0"),
        ("lst[9]", "9"),
        ("lst[\"k\"]", "\"k\""),
        ("str[12]", "12"),
        ("num[1]", "num"),
        ("one(1, 2)", "1, 2"),
        ("one()", ""),
        ("LENGTH()", ""),
        ("APPEND(1, 2)", "1"),
        ("INSERT(lst, 99, 0)", " 99"),
        ("REMOVE(lst, 0)", " 0"),
        ("INSERT(lst, \"x\", 0)", " \"x\""),
    ];
    let contexts: &[&str] = &[
        "DISPLAY(@)\n",
        "x <- @\n",
        "x <- 1 + (2 * (@))\n",
        "IF (@) {\n DISPLAY(1)\n}\n",
        "IF (TRUE) {\n REPEAT 2 TIMES {\n  DISPLAY([1, @])\n }\n}\n",
        "DISPLAY(one(@))\n",
        "lst[1] <- @\n",
        "PROCEDURE deep(n) {\n lst <- [1, 2, 3]\n str <- \"héllo\"\n num <- 5\n IF (n == 0) {\n  RETURN @\n }\n RETURN deep(n - 1)\n}\nDISPLAY(deep(3))\n",
        "FOR EACH it IN [1, 2] {\n y <- @\n}\n",
        "DISPLAY(\"é\" + \"中\" + (@))\n",
    ];
    for (expr, label) in failing {
        for c in contexts {
            let body = c.replace('@', expr);
            let src = format!("{}lst <- [1, 2, 3]\nstr <- \"héllo\"\nnum <- 5\nPROCEDURE one(p) {{\n RETURN p\n}}\nDISPLAY(\"éarlier output\")\n{}", pre(&mut rng), body);
            cases.push(run_case(src, "runtime-error").aux(label.to_string()));
        }
    }
    // loop headers and set targets
    for (stmt, label) in [
        ("REPEAT \"x\" TIMES {\n}\n", "\"x\""),
        ("REPEAT lst TIMES {\n}\n", "lst"),
        ("REPEAT (1 + NULL) TIMES {\n}\n", "+"),
        ("FOR EACH q IN 5 {\n}\n", "5"),
        ("FOR EACH q IN one(NULL) {\n}\n", ")"),
        ("num[1] <- 2\n", "num"),
        ("lst[\"a\"] <- 2\n", "\"a\""),
        ("lst[7] <- 2\n", "7"),
        ("lst[0] <- 2\n", "0"),
    ] {
        for _ in 0..3 {
            let src = format!("{}lst <- [1, 2, 3]\nnum <- 5\nPROCEDURE one(p) {{\n RETURN p\n}}\n{}", pre(&mut rng), stmt);
            cases.push(run_case(src, "runtime-error").aux(label.to_string()));
        }
    }
    // lexical and syntactic diagnostics with noise in front
    let bad = ["x <- 1 ! 2", "x = 1", "y <- \"unterminated", "z <- 1 \\ 2", "w <- #", "v <- \"bad \\q escape\"", "u <- é + ", "IF (x { }", "x <- (1", "REPEAT 2 { }", "FOR x IN y { }", "PROCEDURE () { }", "x <- ]", "f(1,, 2)", "1 <- 2", "😀 <- 1", "x <- 1 😀"];
    for b in bad {
        for ni in 0..noise.len() {
            let src = format!("{}{}\n", noise[ni], b);
            cases.push(run_case(src.clone(), "front-end-error"));
            // the labels themselves are compared with the model's
            cases.push(Case::new(Kind::Parse, src).tag("front-end-error-labels"));
            let crlf = format!("{}語 <- 5\r\n{}\r\nDISPLAY(1)\r\n", noise[ni].replace('\n', "\r\n").replace("\r\r", "\r"), b);
            cases.push(run_case(crlf.clone(), "front-end-error"));
            cases.push(Case::new(Kind::Parse, crlf).tag("front-end-error-labels"));
        }
    }
    // FORMAT / DISPLAYF with too few values: wherever the format text comes from, the label stays inside the call
    for (setup, call) in [
        ("", "FORMAT(\"a {} b {}\", [1])"), ("fmt <- \"a {} b {}\"\n", "FORMAT(fmt, [1])"), ("", "FORMAT(  \"{}{}\"  , [1])"), ("", "FORMAT(\"é\\n{} 語 {}\", [1])"),
        ("fmt <- \"{} {} {} {} {} {} {} {} {} {} {} {} {} {} {} {} {} {} {} {}\"\n", "DISPLAYF(fmt, [1])"), ("PROCEDURE mk() {\nRETURN \"{}{}\"\n}\n", "DISPLAYF(mk(), [])"), ("", "DISPLAYF(\"{}\" + \"{}\", [1])"),
    ] {
        for ni in [0usize, 1, 6] {
            for tail in ["\n", "", "\nDISPLAY(\"after\")\n"] {
                let src = format!("{}IMPORT MOD \"IO\"\n{setup}DISPLAY(\"éarlier output\")\nx <- {call}{tail}", noise[ni]);
                cases.push(run_case(src, "format-error"));
            }
        }
    }
    // native argument errors in calls laid out over several lines: the label is the offending argument, wherever it stands
    for (call, label) in [
        ("INSERT(lst,\n      99, 0)", "99"),
        ("INSERT(lst, 99,\n 0)", " 99"),
        ("REMOVE(lst,\n\t0)", "0"),
        ("REMOVE(\n  lst\n  ,\n  77\n)", "77"),
        ("APPEND(\n1,\n2)", "1"),
        ("INSERT(lst,\n\n\n\"x\", 0)", "\"x\""),
        ("one(1,\n 2)", "1,\n 2"),
    ] {
        for ni in [0usize, 1, 6] {
            for tail in ["\n", "", "\nDISPLAY(\"after\")\n"] {
                let src = format!("{}lst <- [1, 2, 3]\nPROCEDURE one(p) {{\n RETURN p\n}}\nDISPLAY(\"éarlier output\")\nDISPLAY({call}){tail}", noise[ni]);
                cases.push(run_case(src.replace(&format!("DISPLAY({call}){tail}"), &format!("{call}{tail}")), "runtime-error").aux(label.to_string()));
            }
        }
    }
    // nested targets and reads: the label is the bracketed index that fails, at whichever level
    for (src, label) in crate::props6::nested_index_error_family() {
        cases.push(run_case(src, "runtime-error").aux(label));
    }
    // every library procedure, every argument position, every kind of value there (written with and without commas)
    for src in crate::props6::native_argument_label_family(&extract::registry()) {
        cases.push(run_case(src, "native-argument-error"));
    }
    // every kind of lexical / syntactic error as the very last thing of the input (no final newline), after ASCII and
    // after multi-byte text
    for last in ["\\", "!", "=", "\"open", "\"bad \\q", "\"bad \\", "#", "é", "😀", "(", "[", "{", "x <- ", "x <- 1 +", "IF (", "f(1,", "REPEAT", "NOT", "x[", "PROCEDURE", "\"a\\"] {
        for before in ["", "x <- 1\n", "// 語\ny <- \"é\"\n", "z <- 1 "] {
            let src = format!("{before}{last}");
            cases.push(run_case(src.clone(), "front-end-error"));
            cases.push(Case::new(Kind::Parse, src).tag("front-end-error-labels"));
        }
    }
    // errors inside an exported procedure of a user module: the diagnostic belongs to the module's text
    let mod_dir = scratch_dir("c11-modules");
    let _ = std::fs::create_dir_all(mod_dir.join("lib"));
    for (k, (expr, label)) in failing.iter().enumerate() {
        for body_ctx in ["RETURN @\n", "x <- 1 + (@)\nRETURN x\n", "IF (TRUE) {\nDISPLAY([0, @])\n}\n", "TOPLEVEL"] {
            let module = if body_ctx == "TOPLEVEL" {
                // the error is raised while the module's top level runs (directly and through a procedure it calls)
                format!("// módule 語\nPROCEDURE one(p) {{\n RETURN p\n}}\nlst <- [1, 2, 3]\nstr <- \"héllo\"\nnum <- 5\nEXPORT PROCEDURE bad() {{\nRETURN 0\n}}\nDISPLAY(\"module start\")\ny <- {expr}\n")
            } else {
                format!("// módule 語\nPROCEDURE one(p) {{\n RETURN p\n}}\nEXPORT PROCEDURE bad() {{\nlst <- [1, 2, 3]\nstr <- \"héllo\"\nnum <- 5\n{}}}\n", body_ctx.replace('@', expr))
            };
            let name = format!("lib/m{}_{}.ap", k, fnv(body_ctx) % 1000);
            let full = mod_dir.join(&name);
            std::fs::write(&full, &module).unwrap();
            for ni in [0usize, 1, 6] {
                // `one` is called inside the module: it must be visible there (imported whole into the importer as well)
                let main = format!("{}PROCEDURE one(p) {{\n RETURN p\n}}\nIMPORT MOD \"{}\"\nDISPLAY(\"éarlier output\")\nDISPLAY(bad())\n", noise[ni], name);
                let mut c = run_case(main, "module-runtime-error").aux(format!("{}\u{1}{}", label, module));
                c.path = mod_dir.join("main.ap").to_string_lossy().to_string();
                c.files = vec![(full.to_string_lossy().to_string(), Some(module.clone()))];
                cases.push(c);
            }
        }
    }
    // random erroneous programs from the general generator
    let n = if ctx.quick() { 2_000 } else { 50_000 };
    for _ in 0..n {
        let mut g = Gen::new(&mut rng);
        let k = 1 + g.rng.below(4);
        let p = g.program(k);
        let noise_i = g.rng.below(noise.len());
        cases.push(run_case(format!("{}{}", noise[noise_i], p), "random-program"));
    }
    // (appended) the opening brace on the line after a header whose value is wrong (a layout the grammar rejects: a
    // syntax error, never a runtime diagnostic with a label on the line break); modules that fail to lex or parse,
    // imported from a text with other content in front (the label stays on the importer's module name)
    for src in ["FOR EACH q IN 5\n{\n}\n", "FOR EACH q IN 5 {\n}\n", "REPEAT \"x\" TIMES\n{\n}\n", "REPEAT UNTIL (1 / 0)\n{\n}\n", "IF (1 + NULL)\n{\n}\n", "FOR EACH q IN one(NULL)\n\n{\nDISPLAY(q)\n}\n", "FOR EACH q\nIN 5 {\n}\n"] {
        for ni in [0usize, 1, 6] {
            cases.push(run_case(format!("{}PROCEDURE one(p) {{\n RETURN p\n}}\nDISPLAY(\"éarlier output\")\n{src}", noise[ni]), "brace-on-next-line"));
        }
    }
    for (k, module) in ["// módule 語\nx <- (1 + \n", "y <- \"unterminated\n", "// a long first line so that offsets differ ............................................\n\n\nIF (x { }\n", "x = 1\n", "EXPORT PROCEDURE p( {\n}\n", ""].iter().enumerate() {
        let name = format!("lib/front{k}.ap");
        let full = mod_dir.join(&name);
        std::fs::write(&full, module).unwrap();
        for ni in [0usize, 1, 6] {
            for imp in [format!("IMPORT MOD \"{name}\""), format!("IMPORT \"p\" FROM MOD \"{name}\""), format!("IMPORT MOD   \"{name}\"   // tráiling")] {
                let main = format!("{}DISPLAY(\"éarlier output\")\n{imp}\nDISPLAY(\"after\")\n", noise[ni]);
                let mut c = run_case(main, "module-front-end-error");
                c.path = mod_dir.join("main.ap").to_string_lossy().to_string();
                c.files = vec![(full.to_string_lossy().to_string(), Some(module.to_string()))];
                cases.push(c);
            }
        }
    }
    // (appended) a failing construct at the very end of a text with many multi-byte characters in front of it (byte
    // offsets and character counts differ by hundreds)
    for (expr, label) in failing {
        for heavy in ["// ── 語語語語語語語語語語語語語語語語語語語語語語語語語語語語語語語語語語語語語語語語 ──\n", "banner <- \"╔══════════════════════════════════════╗ 😀😀😀😀😀😀😀😀😀😀\"\n"] {
            for tail in ["", "\n"] {
                let src = format!("{heavy}lst <- [1, 2, 3]\nstr <- \"héllo\"\nnum <- 5\nPROCEDURE one(p) {{\n RETURN p\n}}\nDISPLAY(\"éarlier output\")\nx <- {expr}{tail}");
                cases.push(run_case(src, "runtime-error").aux(label.to_string()));
            }
        }
    }
    let oracle = |case: &Case, out: &Outcome| -> Result<bool, String> {
        let Some(r) = out.impl_run.as_ref() else { return Ok(false) };
        let src = &case.src;
        let check = |o: usize, l: usize| -> Result<(), String> {
            if o + l > src.len() || !src.is_char_boundary(o) || !src.is_char_boundary(o + l) {
                return Err(format!("diagnostic label {o}+{l} lies outside the source or inside a character"));
            }
            Ok(())
        };
        match &r.end {
            End::Panic(m) => return Err(format!("implementation panicked: {m}")),
            End::Rt(o, l, _) if case.tags.iter().any(|t| t == "module-runtime-error") => {
                let (label, module) = case.aux.split_once('\u{1}').unwrap_or(("", ""));
                let Some(text) = r.rt_source.as_ref() else { return Err("the runtime diagnostic carries no source text".into()) };
                if text != module {
                    return Err(format!("an error raised inside the module is reported against another text ({} bytes, starting {:?})", text.len(), text.chars().take(30).collect::<String>()));
                }
                if o + l > text.len() || !text.is_char_boundary(*o) || !text.is_char_boundary(o + l) {
                    return Err(format!("diagnostic label {o}+{l} lies outside the module's text or inside a character"));
                }
                let got = &text[*o..*o + *l];
                if got.trim() != label.trim() {
                    return Err(format!("the label covers {:?} of the module, the failing construct is {:?}", got, label));
                }
                // (appended, round 16) the report the public pipeline hands to the command-line tool shows the same
                // construct: its attached source yields the module's text under the label
                if let Some(lts) = imp::public_runtime_label_texts(&case.src, &case.path, case.fuel.max(200_000), 48) {
                    match lts.first() {
                        Some((po, pl, Some(shown))) => {
                            if (*po, *pl) != (*o, *l) || shown.as_str() != got {
                                return Err(format!("the report of the public pipeline shows {:?} at {po}+{pl} for an error raised inside the module at {o}+{l} ({:?})", shown, got));
                            }
                        }
                        Some((po, pl, None)) => return Err(format!("the report of the public pipeline carries a label {po}+{pl} that cannot be read from its attached source (the module's construct is {:?})", got)),
                        None => return Err("the report of the public pipeline carries no label".into()),
                    }
                }
                return Ok(true);
            }
            End::Rt(o, l, _) => {
                check(*o, *l)?;
                // the report the crate's own pipeline hands to the command-line tool carries the interpreter's label
                // unchanged (the conversion between the two is glue the model does not see)
                if case.files.is_empty() {
                    if let Some(labels) = imp::public_runtime_labels(&case.src, &case.path, case.fuel.max(200_000), 48) {
                        if labels.first() != Some(&(*o, *l)) {
                            return Err(format!("the report of the public pipeline is labelled {:?}, the interpreter's error {o}+{l}", labels));
                        }
                    }
                }
                // the diagnostic is attached to this program's text
                if let Some(text) = r.rt_source.as_ref() {
                    if case.files.is_empty() && text != src {
                        return Err("the runtime diagnostic is attached to a text that is not the program's source".into());
                    }
                }
                if case.tags.iter().any(|t| t == "runtime-error") {
                    let got = &src[*o..*o + *l];
                    if got.trim() != case.aux.trim() {
                        return Err(format!("the label covers {:?}, the failing construct is {:?}", got, case.aux));
                    }
                    if !r.output.contains("arlier output") && src.contains("arlier output") {
                        return Err("output produced before the error is missing".into());
                    }
                }
                return Ok(true);
            }
            End::LexErr(_) | End::ParseErr(_) => {
                for ls in &r.diag_labels {
                    for (o, l) in ls {
                        check(*o, *l)?;
                    }
                }
                return Ok(true);
            }
            _ => {
                if case.tags.iter().any(|t| t == "runtime-error") {
                    return Err("the failing construct did not produce a runtime error".into());
                }
            }
        }
        Ok(false)
    };
    let stats = run_cases(&ctx.driver, cases, &oracle, &no_known, ctx.threads);
    PropResult {
        stats,
        rule: "22 failing expressions (every runtime-error kind: arithmetic and type errors, division / MOD by zero, undefined variable / procedure, index out of range / of wrong type / on a non-indexable, wrong argument count, argument casts, INSERT / REMOVE range) x 10 expression / statement contexts (nested in arithmetic, conditions, list literals, call arguments, loops, recursion depth 3), loop-header and indexed-assignment errors, 17 lexical / syntactic errors, random programs; every source prefixed with random noise (comments with 2-, 3- and 4-byte characters, blank lines, strings containing newlines); implementation-only oracle: every label inside the source on character boundaries, the labelled text is the construct the property names for that error kind, earlier output intact; error spans compared with the model; non-trivial = a diagnostic was produced; every library procedure x argument position x twelve values (some written with commas), the other arguments type-correct, plain and written with commas; two- and three-level set targets and reads with the failing index at each level; the opening brace on the line after a header with a wrong value; modules that fail to lex or parse under three import spellings; every runtime error also through the crate's public pipeline (ApLang::execute): the report's label is the interpreter's; failing constructs at the very end of texts with hundreds of multi-byte bytes in front".into(),
        exhaustive: false,
        notes: vec!["round 16: for errors raised inside a user module the report of the public pipeline (ApLang::execute) is read through its own attached source: the text under its first label must be the module's failing construct".into()],
    }
}

// ---------------------------------------------------------------------------------------------
// the real binary (C12, C19)

pub const BINARY: &str = "/repo/target/debug/aplang";

pub fn build_binary() -> Result<(), String> {
    let out = Command::new("cargo").args(["build", "--offline"]).current_dir("/repo").env("CARGO_NET_OFFLINE", "true").output().map_err(|e| e.to_string())?;
    if !out.status.success() {
        return Err(String::from_utf8_lossy(&out.stderr).to_string());
    }
    Ok(())
}

pub struct BinRun {
    pub code: Option<i32>,
    pub stdout: Vec<u8>,
    pub stderr: Vec<u8>,
}

pub fn run_binary(args: &[&str], stdin: Option<&[u8]>, cwd: &std::path::Path) -> BinRun {
    use std::io::Write;
    let mut child = Command::new(BINARY)
        .args(args)
        .current_dir(cwd)
        // always a pipe (closed at once when there is no input): never depend on /dev/null being sane
        .stdin(Stdio::piped())
        .stdout(Stdio::piped())
        .stderr(Stdio::piped())
        .env("NO_COLOR", "1")
        .spawn()
        .expect("cannot run the aplang binary");
    {
        let mut si = child.stdin.take().unwrap();
        if let Some(data) = stdin {
            let _ = si.write_all(data);
        }
    }
    collect_child(child)
}

/// read both streams of the child to their end, keeping at most 256 MiB of standard output and 64 MiB of standard
/// error (the rest is drained and dropped: a program that writes without bound must not take the harness's memory)
fn collect_child(mut child: std::process::Child) -> BinRun {
    fn drain(mut r: impl std::io::Read, cap: usize) -> Vec<u8> {
        let mut buf = vec![];
        let mut chunk = vec![0u8; 1 << 16];
        loop {
            match r.read(&mut chunk) {
                Ok(0) | Err(_) => break,
                Ok(n) => {
                    if buf.len() < cap {
                        let take = n.min(cap - buf.len());
                        buf.extend_from_slice(&chunk[..take]);
                    }
                }
            }
        }
        buf
    }
    let so = child.stdout.take().unwrap();
    let se = child.stderr.take().unwrap();
    let (stdout, stderr) = std::thread::scope(|s| {
        let h = s.spawn(move || drain(se, 64 << 20));
        let out = drain(so, 256 << 20);
        (out, h.join().unwrap_or_default())
    });
    let status = child.wait().unwrap();
    BinRun { code: status.code(), stdout, stderr }
}

/// the same with file descriptor 0 closed in the child (not an empty pipe: no standard input at all)
pub fn run_binary_stdin_closed(args: &[&str], cwd: &std::path::Path) -> BinRun {
    use std::os::unix::process::CommandExt;
    let mut cmd = Command::new(BINARY);
    cmd.args(args).current_dir(cwd).stdout(Stdio::piped()).stderr(Stdio::piped()).env("NO_COLOR", "1");
    unsafe {
        cmd.pre_exec(|| {
            libc::close(0);
            Ok(())
        });
    }
    collect_child(cmd.spawn().expect("cannot run the aplang binary"))
}

pub fn scratch_dir(tag: &str) -> std::path::PathBuf {
    let base = std::path::PathBuf::from("/verif/.build/scratch").join(format!("{tag}-{}", std::process::id()));
    let _ = std::fs::remove_dir_all(&base);
    std::fs::create_dir_all(&base).unwrap();
    base
}

pub fn dist_add(d: &mut BTreeMap<String, u64>, k: &str) {
    *d.entry(k.to_string()).or_insert(0) += 1;
}

pub fn _keep(_: &[u8]) -> String {
    hex(&[])
}
