"""Per-property configuration of ./check: which Lean modules hold the property's theorems, what is assumed."""

COMMON_ASSUMPTIONS = [
    "theorems are about the Lean model; they transfer to /repo only as far as the correspondence run of this check exercised the code",
    "usize is 64 bits (x86-64)",
]

PROPS = {
    "C07": {
        "theorems": ["Aplang.Thm.C07"],
        "assumptions": COMMON_ASSUMPTIONS + [
            "Rust's str::parse::<f64> on digits[.digits] is the correctly rounded double (the model uses Float.ofScientific)",
            "char::is_alphanumeric is a parameter of the theorems; the driver uses the table extracted from Rust",
        ],
    },
    "C08": {
        "theorems": ["Aplang.Thm.C08"],
        "assumptions": COMMON_ASSUMPTIONS + [
            "native stack depth is not modelled: nesting is bounded at 200 in the correspondence run (the property's fixed depth)",
            "miette's rendering is exercised ({:?} on every diagnostic) but not modelled",
        ],
    },
}

LEVEL_TEXT = {
    "C07": "Theorems for every source string and every keyword table / character class: each token's byte range reproduces its text on character boundaries (lex_spans_exact), ranges increase without overlap (lex_ordered), exactly one end-of-input marker at the end (lex_eof_once, with the keyword table extracted from the live code re-checked by `decide`), the marker lies inside the source. The model is tied to the lexer by an exhaustive run over all strings of length <= 3 (thorough: 4) over a 33-symbol lexical alphabet plus random and mutated programs, comparing kinds, lexemes, literal bits, spans and diagnostic labels; implementation-only span invariants are evaluated on the same cases. Not yet proved: the characterisation 'fails exactly when a lexical error is present' (lex_error_iff) — covered by the correspondence only.",
    "C08": "Theorems for every token list the lexer can produce and every fuel: the parser model — which contains the Rust's partial operations (peek past the end, previous() at 0, literal without value) as panic outcomes — never reaches one (parse_no_panic, front_end_no_panic_live with the live keyword table); a failed parse carries >= 1 diagnostic (parse_dichotomy); error recovery strictly consumes input (synchronize_consumes, recovery_progress). Correspondence: every sequence of <= 2 (thorough: 3) tokens over all 45 kinds, random sequences, all short strings, token-level mutations of the repository's programs, nesting to depth 200, with every diagnostic rendered under catch_unwind. Partial: native stack depth and miette's renderer are exercised, not modelled; that the model's fuel is never exhausted is measured (0 cases), not proved.",
}
NOT_CLAIMED = {}
