#!/usr/bin/env python3
"""Seeded-change bookkeeping.

  seedtool.py confirm <delivery-dir> <scratch-worktree>   confirm a delivered change myself: applies, builds, the existing
                                                          tests pass, the demonstration fails with it and passes without it;
                                                          then file it under /verif/seeded/<id>/ (patch.diff, demo, meta.json)
  seedtool.py run <id> [tier] [props...]                  apply /verif/seeded/<id>/patch.diff to /repo, run the property's check
                                                          (and any further listed properties), undo; record the verdict in meta.json
  seedtool.py table                                       markdown table of all seeded changes and which checks caught them
"""
import json, os, shutil, subprocess, sys, time

VERIF = "/verif"
SEEDED = os.path.join(VERIF, "seeded")
ENV = dict(os.environ, CARGO_NET_OFFLINE="true")


def sh(cmd, cwd=None, timeout=3600):
    p = subprocess.run(cmd, shell=True, cwd=cwd, env=ENV, stdout=subprocess.PIPE, stderr=subprocess.STDOUT, text=True, timeout=timeout)
    return p.returncode, p.stdout


def confirm(delivery, wt):
    sid = os.path.basename(delivery.rstrip("/"))
    prop = sid.split("-")[0]
    patch = os.path.join(delivery, "patch.diff")
    demo = os.path.join(delivery, "demo.sh")
    res = {"id": sid, "property": prop}
    sh("git checkout -- . && git clean -fdq -e target", wt)
    rc, out = sh(f"git apply --check {patch} && git apply {patch}", wt)
    res["applies"] = rc == 0
    if rc != 0:
        print(out)
        return res
    rc, out = sh("cargo build --offline 2>&1 | tail -3", wt)
    res["compiles"] = "Finished" in out
    rc, out = sh("cargo test --workspace --no-fail-fast --offline 2>&1 | grep -E '^test result|FAILED|failed' ", wt)
    res["tests"] = [l for l in out.splitlines() if l.startswith("test result")]
    res["tests_pass"] = bool(res["tests"]) and all(" 0 failed" in l for l in res["tests"]) and "FAILED" not in out
    rc, out = sh(f"bash {demo} {wt}", delivery, timeout=300)
    res["demo_fails_with_change"] = rc != 0
    res["demo_output_with_change"] = out[-600:]
    sh("git checkout -- . && git clean -fdq -e target", wt)
    rc, out = sh("cargo build --offline 2>&1 | tail -3", wt)
    rc, out = sh(f"bash {demo} {wt}", delivery, timeout=300)
    res["demo_passes_without_change"] = rc == 0
    res["confirmed"] = all(res.get(k) for k in ("applies", "compiles", "tests_pass", "demo_fails_with_change", "demo_passes_without_change"))
    if res["confirmed"]:
        dst = os.path.join(SEEDED, sid)
        if os.path.exists(dst):
            shutil.rmtree(dst)
        shutil.copytree(delivery, dst)
        meta = {"id": sid, "property": prop, "confirmed": {k: res[k] for k in ("applies", "compiles", "tests_pass", "demo_fails_with_change", "demo_passes_without_change")},
                "existing_tests": res["tests"], "files_touched": files_touched(patch), "checks": {}}
        notes = os.path.join(delivery, "notes.md")
        if os.path.exists(notes):
            meta["summary"] = open(notes).read()[:1500]
        json.dump(meta, open(os.path.join(dst, "meta.json"), "w"), indent=1)
    return res


def files_touched(patch):
    return sorted({l[6:].strip() for l in open(patch) if l.startswith("+++ b/")})


def run(sid, tier="quick", props=None):
    d = os.path.join(SEEDED, sid)
    meta = json.load(open(os.path.join(d, "meta.json")))
    props = props or [meta["property"]]
    rc, out = sh("git status --porcelain", "/repo")
    if out.strip():
        print("/repo is not clean:", out)
        sys.exit(2)
    rc, out = sh(f"git apply {d}/patch.diff", "/repo")
    if rc != 0:
        print("patch does not apply", out)
        sys.exit(2)
    saved = {}
    for p in props:
        ep = os.path.join(VERIF, "evidence", f"{p}.json")
        if os.path.exists(ep):
            saved[ep] = open(ep).read()
    try:
        for p in props:
            t0 = time.time()
            rc, out = sh(f"./check {p} {tier}", VERIF, timeout=7200)
            viol = [l for l in out.splitlines() if l.startswith("VIOLATION")]
            replays = []
            for v in viol[:2]:
                rp = v.split("replay=")[1].split()[0]
                try:
                    txt = open(rp).read()
                    replays.append(txt[:700])
                except OSError:
                    pass
            if f"{p}:{tier}" in meta["checks"]:
                prev = meta["checks"][f"{p}:{tier}"]
                meta.setdefault("earlier_runs", []).append({"check": f"{p}:{tier}", "caught": prev["caught"], "violations": prev["violations"][:1]})
            meta["checks"][f"{p}:{tier}"] = {"exit": rc, "caught": rc == 1 and bool(viol), "violations": viol[:5], "replay_excerpt": replays[:1],
                                            "seconds": round(time.time() - t0, 1), "tail": out.splitlines()[-3:]}
            print(sid, p, tier, "exit", rc, "CAUGHT" if viol else "missed", viol[:1])
    finally:
        # the committed evidence comes from the unchanged tree only
        for ep, txt in saved.items():
            open(ep, "w").write(txt)
        sh("git checkout -- . && git clean -fdq -e target", "/repo")
        sh("rm -f /verif/replay/*", VERIF)
    json.dump(meta, open(os.path.join(d, "meta.json"), "w"), indent=1)


def table(write=False):
    rows = []
    n = caught_now = missed_first = 0
    for sid in sorted(os.listdir(SEEDED)):
        mp = os.path.join(SEEDED, sid, "meta.json")
        if not os.path.exists(mp):
            continue
        m = json.load(open(mp))
        n += 1
        now = []
        for k, v in sorted(m["checks"].items()):
            t = "caught" if v["caught"] else "MISSED"
            if any("no-failing-input-found" in x for x in v["violations"]):
                t += " (obligation broke, no-failing-input-found)"
            now.append(f"{k} {t}")
        own = m["checks"].get(f"{m['property']}:quick") or m["checks"].get(f"{m['property']}:thorough")
        if own and own["caught"]:
            caught_now += 1
        first = ""
        er = m.get("earlier_runs", [])
        if er:
            e0 = er[0]
            if not e0.get("caught"):
                first = "missed"
                missed_first += 1
            elif any("no-failing-input-found" in x for x in e0.get("violations", [])) or "no-failing-input" in e0.get("note", ""):
                first = "caught without a failing input"
                missed_first += 1
            else:
                first = "caught"
        else:
            first = "caught" if m["checks"] and all(v["caught"] for v in m["checks"].values()) else ""
        rows.append(f"| {sid} | r{m.get('round', '?')} | {', '.join(x.replace('src/', '') for x in m['files_touched'])} | {m.get('one_line', '')} | {first} | {'; '.join(now)} |")
    text = f"{n} confirmed seeded changes; first run of the property's quick check: {n - missed_first} caught with a failing input, {missed_first} missed or caught without one; after strengthening: {caught_now} caught by the property's own check (entries for other properties' checks are cross-runs of a miss, made before strengthening).\n\n"
    text += "| id | round | files | change | first run | current |\n|---|---|---|---|---|---|\n" + "\n".join(rows)
    if write:
        d = open(os.path.join(VERIF, "DESIGN.md")).read()
        a, b = "<!-- SEEDED-BEGIN -->", "<!-- SEEDED-END -->"
        if a in d:
            d = d[:d.index(a) + len(a)] + "\n" + text + "\n" + d[d.index(b):]
        else:
            d = d.replace("SEEDED_TABLE_PLACEHOLDER", a + "\n" + text + "\n" + b)
        open(os.path.join(VERIF, "DESIGN.md"), "w").write(d)
    else:
        print(text)


if __name__ == "__main__":
    a = sys.argv[1:]
    if a[0] == "confirm":
        print(json.dumps(confirm(a[1], a[2]), indent=1))
    elif a[0] == "run":
        run(a[1], a[2] if len(a) > 2 else "quick", a[3:] or None)
    elif a[0] == "table":
        table(write="--write" in a)
